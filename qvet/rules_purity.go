package main

// H-rules: plan purity / determinism (C14).

import (
	"fmt"
	"go/ast"
	"go/token"
	"go/types"
	"sort"
	"strings"
)

type fieldWrite struct {
	fi     *FuncInfo
	field  string
	stmt   ast.Node
	rmw    bool      // the stored value depends on the previous value of the same field
	memo   bool      // guarded by a zero-test of the same field
	how    string    // description
	gStart token.Pos // memo-guarded region (the branch containing the write)
	gEnd   token.Pos
}

// plannerMethods: methods named Process of module types under reader/ plus the same-receiver methods they call (transitively).
func (c *Ctx) processClosure() map[*types.Func]*FuncInfo {
	all := map[*types.Func]*FuncInfo{}
	for _, fi := range c.Funcs(c.PkgsUnder(transpilerScopes...)) {
		if isTestFile(c, fi.Decl) || fi.Decl.Recv == nil {
			continue
		}
		if fn, ok := fi.Pkg.TypesInfo.Defs[fi.Decl.Name].(*types.Func); ok {
			all[fn] = fi
		}
	}
	out := map[*types.Func]*FuncInfo{}
	var add func(fn *types.Func)
	add = func(fn *types.Func) {
		fi := all[fn]
		if fi == nil || out[fn] != nil {
			return
		}
		out[fn] = fi
		info := fi.Pkg.TypesInfo
		recv := recvObj(fi)
		ast.Inspect(fi.Decl.Body, func(n ast.Node) bool {
			call, ok := n.(*ast.CallExpr)
			if !ok {
				return true
			}
			se, ok := ast.Unparen(call.Fun).(*ast.SelectorExpr)
			if !ok {
				return true
			}
			if id, ok := ast.Unparen(se.X).(*ast.Ident); ok && recv != nil && info.Uses[id] == recv {
				if callee, ok := calleeObj(info, call).(*types.Func); ok {
					add(callee)
				}
			}
			return true
		})
	}
	for fn := range all {
		if fn.Name() == "Process" {
			add(fn)
		}
	}
	return out
}

func recvObj(fi *FuncInfo) types.Object {
	if fi.Decl.Recv == nil || len(fi.Decl.Recv.List) == 0 || len(fi.Decl.Recv.List[0].Names) == 0 {
		return nil
	}
	return fi.Pkg.TypesInfo.Defs[fi.Decl.Recv.List[0].Names[0]]
}

// readsField: expression (or the same-receiver methods it calls, one level) reads recv.field
func (c *Ctx) readsField(fi *FuncInfo, e ast.Node, recv types.Object, field string, all map[*types.Func]*FuncInfo, depth int) bool {
	info := fi.Pkg.TypesInfo
	hit := false
	ast.Inspect(e, func(n ast.Node) bool {
		switch x := n.(type) {
		case *ast.SelectorExpr:
			if id, ok := ast.Unparen(x.X).(*ast.Ident); ok && info.Uses[id] == recv && x.Sel.Name == field {
				hit = true
			}
		case *ast.CallExpr:
			if depth < 2 {
				if se, ok := ast.Unparen(x.Fun).(*ast.SelectorExpr); ok {
					if id, ok := ast.Unparen(se.X).(*ast.Ident); ok && info.Uses[id] == recv {
						if callee, ok := calleeObj(info, x).(*types.Func); ok {
							if cfi := all[callee]; cfi != nil {
								if c.readsField(cfi, cfi.Decl.Body, recvObj(cfi), field, all, depth+1) {
									hit = true
								}
							}
						}
					}
				}
			}
		case *ast.Ident:
			// local derived from the field
			if v, ok := info.Uses[x].(*types.Var); ok && !v.IsField() && v != recv && depth < 2 {
				ast.Inspect(fi.Decl, func(m ast.Node) bool {
					if as, ok := m.(*ast.AssignStmt); ok {
						for i, lh := range as.Lhs {
							if lid, ok := lh.(*ast.Ident); ok && (info.Defs[lid] == v || info.Uses[lid] == v) {
								var rhs ast.Expr
								if len(as.Rhs) == len(as.Lhs) {
									rhs = as.Rhs[i]
								} else if len(as.Rhs) == 1 {
									rhs = as.Rhs[0]
								}
								if rhs != nil && !(rhs.Pos() <= x.Pos() && x.End() <= rhs.End()) && c.readsField(fi, rhs, recv, field, all, depth+1) {
									hit = true
								}
							}
						}
					}
					return true
				})
			}
		}
		return true
	})
	return hit
}

func (c *Ctx) plannerFieldWrites() []fieldWrite {
	closure := c.processClosure()
	var out []fieldWrite
	for _, fi := range closure {
		info := fi.Pkg.TypesInfo
		recv := recvObj(fi)
		if recv == nil {
			continue
		}
		if _, isPtr := recv.Type().(*types.Pointer); !isPtr {
			continue // value receiver: writes do not persist
		}
		// function-level memo: the body starts with `if len(recv.F) > 0 { return … }` / `if recv.F != nil { return … }`
		// and F is written below: everything after the guard runs only while F is still empty
		funcMemo := ""
		if len(fi.Decl.Body.List) > 0 {
			if is, ok := fi.Decl.Body.List[0].(*ast.IfStmt); ok && is.Else == nil && len(is.Body.List) == 1 {
				if _, isRet := is.Body.List[0].(*ast.ReturnStmt); isRet {
					if be, ok := ast.Unparen(is.Cond).(*ast.BinaryExpr); ok && (be.Op == token.GTR || be.Op == token.NEQ) {
						x := ast.Unparen(be.X)
						if call, ok := x.(*ast.CallExpr); ok {
							if id, ok := call.Fun.(*ast.Ident); ok && id.Name == "len" && len(call.Args) == 1 {
								x = ast.Unparen(call.Args[0])
							}
						}
						if fs, ok := x.(*ast.SelectorExpr); ok {
							if fid, ok := ast.Unparen(fs.X).(*ast.Ident); ok && info.Uses[fid] == recv {
								funcMemo = fs.Sel.Name
							}
						}
					}
				}
			}
		}
		memoWritten := false
		if funcMemo != "" {
			ast.Inspect(fi.Decl.Body, func(n ast.Node) bool {
				if as, ok := n.(*ast.AssignStmt); ok {
					for _, lh := range as.Lhs {
						if se, ok := ast.Unparen(lh).(*ast.SelectorExpr); ok && se.Sel.Name == funcMemo {
							memoWritten = true
						}
					}
				}
				return true
			})
		}
		var stack []ast.Node
		ast.Inspect(fi.Decl.Body, func(n ast.Node) bool {
			if n == nil {
				stack = stack[:len(stack)-1]
				return true
			}
			stack = append(stack, n)
			as, ok := n.(*ast.AssignStmt)
			if !ok {
				return true
			}
			for i, lh := range as.Lhs {
				se, ok := ast.Unparen(lh).(*ast.SelectorExpr)
				if !ok {
					// *recv.f = …
					if st, isStar := ast.Unparen(lh).(*ast.StarExpr); isStar {
						se, ok = ast.Unparen(st.X).(*ast.SelectorExpr)
					}
					if !ok {
						continue
					}
				}
				id, ok := ast.Unparen(se.X).(*ast.Ident)
				if !ok || info.Uses[id] != recv {
					continue
				}
				var rhs ast.Expr
				if len(as.Rhs) == len(as.Lhs) {
					rhs = as.Rhs[i]
				} else if len(as.Rhs) == 1 {
					rhs = as.Rhs[0]
				}
				w := fieldWrite{fi: fi, field: se.Sel.Name, stmt: as}
				if as.Tok != token.ASSIGN && as.Tok != token.DEFINE {
					w.rmw = true
				} else if rhs != nil && c.readsField(fi, rhs, recv, se.Sel.Name, closure, 0) {
					w.rmw = true
				}
				// memo guard: the write lies in the branch of an enclosing `if` on which recv.field (or *recv.field) is known to be nil/zero
				isField := func(e ast.Expr) bool {
					e = ast.Unparen(e)
					if st, ok := e.(*ast.StarExpr); ok {
						e = ast.Unparen(st.X)
					}
					fs, ok := e.(*ast.SelectorExpr)
					if !ok || fs.Sel.Name != se.Sel.Name {
						return false
					}
					fid, ok := ast.Unparen(fs.X).(*ast.Ident)
					return ok && info.Uses[fid] == recv
				}
				isNilOrZero := func(e ast.Expr) bool {
					tv, ok := info.Types[e]
					return ok && (tv.IsNil() || (tv.Value != nil && (tv.Value.ExactString() == "0" || tv.Value.ExactString() == `""`)))
				}
				for _, anc := range stack {
					is, ok := anc.(*ast.IfStmt)
					if !ok {
						continue
					}
					inThen := is.Body.Pos() <= as.Pos() && as.End() <= is.Body.End()
					inElse := is.Else != nil && is.Else.Pos() <= as.Pos() && as.End() <= is.Else.End()
					if inThen {
						for _, a := range atomsTrueOn(is.Cond) {
							if be, ok := ast.Unparen(a).(*ast.BinaryExpr); ok && be.Op == token.EQL && isField(be.X) && isNilOrZero(be.Y) {
								w.memo, w.gStart, w.gEnd = true, is.Body.Pos(), is.Body.End()
							}
						}
					}
					if inElse {
						for _, a := range atomsTrueOn(is.Cond) {
							if be, ok := ast.Unparen(a).(*ast.BinaryExpr); ok && be.Op == token.NEQ && isField(be.X) && isNilOrZero(be.Y) {
								// cond = … && f != nil: the else branch is taken when some conjunct is false; accept when f != nil is the conjunct
								// that distinguishes "already cached" (the usual `cache != nil && *cache != nil` shape)
								w.memo, w.gStart, w.gEnd = true, is.Else.Pos(), is.Else.End()
							}
						}
					}
				}
				if funcMemo != "" && memoWritten {
					w.memo = true
				}
				w.how = c.normText(as)
				out = append(out, w)
			}
			return true
		})
	}
	sort.Slice(out, func(i, j int) bool {
		if out[i].fi.Name() != out[j].fi.Name() {
			return out[i].fi.Name() < out[j].fi.Name()
		}
		return out[i].stmt.Pos() < out[j].stmt.Pos()
	})
	return out
}

// frozen, reasoned exceptions: (function, field) → reason
var h1Exceptions = map[string]string{
	"reader/logql/logql_transpiler_v2/clickhouse_planner.(*ByWithoutPlanner).processTSTable writes field LabelsCache": "intra-execution hand-over to later stages: the cache is *read* only when an upstream stage of the same execution supplied it (LabelsJoinPlanner overwrites it unconditionally on every execution); when this stage built the labels itself the read is disabled by the ownLabels flag and they are rebuilt from scratch. Valid only while the cache read is guarded by ownLabels (checked)",
}

// h1ExceptionHolds: the structural side condition of an exception still holds on the current tree.
func (c *Ctx) h1ExceptionHolds(key string, w fieldWrite) bool {
	if strings.Contains(key, "processTSTable writes field LabelsCache") {
		ok := false
		ast.Inspect(w.fi.Decl.Body, func(n ast.Node) bool {
			if is, isIf := n.(*ast.IfStmt); isIf {
				t := c.normText(is.Cond)
				if strings.Contains(t, "LabelsCache") && strings.Contains(t, "!b.ownLabels") {
					ok = true
				}
			}
			return true
		})
		return ok
	}
	return true
}

var ruleH1 = &Rule{
	ID:    "H1",
	Floor: 3,
	Doc: "no read-modify-write of planner state in Process: in methods named Process of the query translators (and the same-receiver helpers they call) a store to a receiver field whose stored value depends on the previous value of that field — directly, through a local, or through a same-receiver method that reads it — " +
		"changes what the next execution of the same plan object translates; allowed: the memo idiom `if recv.f == <zero> { recv.f = … }` and a frozen list of reviewed (function, field) pairs",
	Run: func(c *Ctx) []Obl {
		var obls []Obl
		nth := map[string]int{}
		for _, w := range c.plannerFieldWrites() {
			k := fmt.Sprintf("%s writes field %s", w.fi.Name(), w.field)
			nth[k]++
			key := k
			if nth[k] > 1 {
				key = fmt.Sprintf("%s #%d", k, nth[k])
			}
			switch {
			case !w.rmw:
				obls = append(obls, Obl{Key: key, Pos: c.pos(w.stmt.Pos()), Status: OK, Msg: "overwritten from plan-constant inputs on every execution"})
			case w.memo:
				obls = append(obls, Obl{Key: key, Pos: c.pos(w.stmt.Pos()), Status: OK, Msg: "memo idiom (written only while the memo field is still empty)"})
			case h1Exceptions[k] != "" && c.h1ExceptionHolds(k, w):
				obls = append(obls, Obl{Key: key, Pos: c.pos(w.stmt.Pos()), Status: Exception, Msg: h1Exceptions[k]})
			default:
				obls = append(obls, Obl{Key: key, Pos: c.pos(w.stmt.Pos()), Status: Violation,
					Msg: "`" + shorten(w.how, 120) + "`: the new value of the planner field depends on its previous value, so re-executing the prepared plan (live tail does so every second; complex TraceQL once per portion) translates a different query"})
			}
		}
		return obls
	},
}

var _ = strings.Contains

func init() { register(ruleH1) }

// ---------------------------------------------------------------------------------
// H2 / H3

var ruleH2 = &Rule{
	ID:    "H2",
	Floor: 0,
	Doc: "translation writes no package-level state: no function of the query translator packages (other than package initialisers) stores to a package-level variable, to a field/element reachable from one, or updates a package-level map — " +
		"so a translation cannot depend on earlier translations in the process. Expected count of stores: 0 (a positive control is exercised by the self-test)",
	Run: func(c *Ctx) []Obl {
		g := c.CG()
		var obls []Obl
		n := 0
		for _, fn := range moduleFuncs(g) {
			top := fn
			for top.Parent() != nil {
				top = top.Parent()
			}
			if top.Pkg == nil || isTestFunc(c, fn) {
				continue
			}
			r := rel(top.Pkg.Pkg.Path())
			inScope := false
			for _, s := range transpilerScopes {
				if r == s || strings.HasPrefix(r, s+"/") {
					inScope = true
				}
			}
			if !inScope || top.Name() == "init" || strings.HasPrefix(top.Name(), "init#") {
				continue
			}
			n++
			for _, b := range fn.Blocks {
				for _, ins := range b.Instrs {
					var addr ssaValue
					switch x := ins.(type) {
					case *ssaStore:
						addr = x.Addr
					case *ssaMapUpdate:
						addr = x.Map
					default:
						continue
					}
					if gl := rootGlobal(addr, 0); gl != nil && gl.Pkg != nil && strings.HasPrefix(gl.Pkg.Pkg.Path(), modPath) {
						obls = append(obls, Obl{Key: fmt.Sprintf("%s stores to package variable %s", ssaName(fn), gl.Name()), Pos: c.pos(ins.Pos()), Status: Violation,
							Msg: "query translation mutates process-wide state: the SQL produced for a query can depend on which queries were translated before"})
					}
				}
			}
		}
		obls = append(obls, Obl{Key: "translator functions scanned for stores to package-level state", Pos: "-", Status: OK, Msg: fmt.Sprintf("%d functions, %d stores found", n, len(obls))})
		return obls
	},
}

var ruleH3 = &Rule{
	ID:    "H3",
	Floor: 0,
	Doc:   "no map-order dependence in generated SQL: in the query translator packages a `range` over a map whose body appends to a slice / builds a string must be followed by a sort of the result (or iterate sorted keys); otherwise the same query can render different SQL text on each translation",
	Run: func(c *Ctx) []Obl {
		var obls []Obl
		for _, fi := range c.Funcs(c.PkgsUnder(transpilerScopes...)) {
			if isTestFile(c, fi.Decl) || !c.LiveFunc(fi) {
				continue
			}
			info := fi.Pkg.TypesInfo
			n := 0
			ast.Inspect(fi.Decl.Body, func(nd ast.Node) bool {
				rs, ok := nd.(*ast.RangeStmt)
				if !ok {
					return true
				}
				tv, ok := info.Types[rs.X]
				if !ok {
					return true
				}
				if _, isMap := tv.Type.Underlying().(*types.Map); !isMap {
					return true
				}
				n++
				key := fmt.Sprintf("%s range over map %s #%d", fi.Name(), c.normText(rs.X), n)
				// order-sensitive accumulation in the body?
				var accum []string
				ast.Inspect(rs.Body, func(m ast.Node) bool {
					switch x := m.(type) {
					case *ast.AssignStmt:
						if len(x.Rhs) == 1 {
							if call, ok := x.Rhs[0].(*ast.CallExpr); ok {
								if id, ok := call.Fun.(*ast.Ident); ok && id.Name == "append" {
									accum = append(accum, c.normText(x.Lhs[0]))
								}
							}
						}
						if x.Tok == token.ADD_ASSIGN {
							if tv, ok := info.Types[x.Lhs[0]]; ok && types.Identical(tv.Type, types.Typ[types.String]) {
								accum = append(accum, c.normText(x.Lhs[0]))
							}
						}
					case *ast.CallExpr:
						if se, ok := ast.Unparen(x.Fun).(*ast.SelectorExpr); ok && strings.HasPrefix(se.Sel.Name, "Write") {
							accum = append(accum, c.normText(se.X))
						}
					}
					return true
				})
				// accumulators declared inside the loop body are per-iteration values, not order-sensitive
				var outer []string
				for _, a := range accum {
					declaredInside := false
					ast.Inspect(rs.Body, func(m ast.Node) bool {
						if as, ok := m.(*ast.AssignStmt); ok && as.Tok == token.DEFINE {
							for _, lh := range as.Lhs {
								if c.normText(lh) == a {
									declaredInside = true
								}
							}
						}
						if vs, ok := m.(*ast.ValueSpec); ok {
							for _, nm := range vs.Names {
								if nm.Name == a {
									declaredInside = true
								}
							}
						}
						return true
					})
					if !declaredInside {
						outer = append(outer, a)
					}
				}
				accum = outer
				if len(accum) == 0 {
					obls = append(obls, Obl{Key: key, Pos: c.pos(rs.Pos()), Status: OK, Msg: "no order-sensitive accumulation"})
					return true
				}
				// sorted afterwards?
				sorted := false
				ast.Inspect(fi.Decl.Body, func(m ast.Node) bool {
					if call, ok := m.(*ast.CallExpr); ok && call.Pos() > rs.End() {
						if o := calleeObj(info, call); o != nil && (objPkgPath(o) == "sort" || objPkgPath(o) == "slices" || strings.HasSuffix(objPkgPath(o), "/slices")) && strings.HasPrefix(o.Name(), "S") {
							for _, a := range accum {
								if len(call.Args) > 0 && c.normText(call.Args[0]) == a {
									sorted = true
								}
							}
						}
					}
					return true
				})
				if sorted {
					obls = append(obls, Obl{Key: key, Pos: c.pos(rs.Pos()), Status: OK, Msg: "result sorted after the loop"})
				} else {
					obls = append(obls, Obl{Key: key, Pos: c.pos(rs.Pos()), Status: Violation,
						Msg: fmt.Sprintf("the loop accumulates into %v in Go's randomised map order and the result is not sorted: translating the same query twice can yield different SQL text", uniq(accum))})
				}
				return true
			})
		}
		return obls
	},
}

func init() { register(ruleH2, ruleH3) }
