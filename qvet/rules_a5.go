package main

// A5 (SSA, interprocedural): the version row is written after its script, for that script's index, for that stream.

import (
	"fmt"
	"go/token"
	"go/types"
	"sort"
	"strings"

	"golang.org/x/tools/go/ssa"
)

// ---- linear forms over SSA values ----

type vlin struct {
	terms map[ssa.Value]int64
	k     int64
}

func (a vlin) plus(b vlin, sign int64) vlin {
	out := vlin{terms: map[ssa.Value]int64{}, k: a.k + sign*b.k}
	for v, c := range a.terms {
		out.terms[v] += c
	}
	for v, c := range b.terms {
		out.terms[v] += sign * c
	}
	for v, c := range out.terms {
		if c == 0 {
			delete(out.terms, v)
		}
	}
	return out
}

func (a vlin) eq(b vlin) bool {
	d := a.plus(b, -1)
	return len(d.terms) == 0 && d.k == 0
}

func (a vlin) String() string {
	var parts []string
	for v, c := range a.terms {
		n := v.Name()
		if p, ok := v.(*ssa.Parameter); ok {
			n = p.Name()
		}
		if ph, ok := v.(*ssa.Phi); ok && ph.Comment != "" {
			n = ph.Comment
		}
		if c == 1 {
			parts = append(parts, n)
		} else {
			parts = append(parts, fmt.Sprintf("%d*%s", c, n))
		}
	}
	sort.Strings(parts)
	if a.k != 0 || len(parts) == 0 {
		parts = append(parts, fmt.Sprint(a.k))
	}
	return strings.Join(parts, " + ")
}

// linOf evaluates an integer SSA value into a linear form; subst maps parameters of a callee to the argument values of the call.
func linOf(v ssa.Value, subst map[ssa.Value]ssa.Value, depth int) vlin {
	zero := vlin{terms: map[ssa.Value]int64{}}
	if v == nil || depth > 12 {
		return zero
	}
	if s, ok := subst[v]; ok {
		return linOf(s, nil, depth+1)
	}
	switch x := v.(type) {
	case *ssa.Const:
		if x.Value != nil {
			if n, ok := int64Of(x); ok {
				return vlin{terms: map[ssa.Value]int64{}, k: n}
			}
		}
	case *ssa.Convert:
		return linOf(x.X, subst, depth+1)
	case *ssa.ChangeType:
		return linOf(x.X, subst, depth+1)
	case *ssa.MakeInterface:
		return linOf(x.X, subst, depth+1)
	case *ssa.BinOp:
		switch x.Op {
		case token.ADD:
			return linOf(x.X, subst, depth+1).plus(linOf(x.Y, subst, depth+1), 1)
		case token.SUB:
			return linOf(x.X, subst, depth+1).plus(linOf(x.Y, subst, depth+1), -1)
		}
	}
	return vlin{terms: map[ssa.Value]int64{v: 1}}
}

func int64Of(k *ssa.Const) (int64, bool) {
	if k == nil || k.Value == nil {
		return 0, false
	}
	s := k.Value.ExactString()
	var n int64
	if _, err := fmt.Sscanf(s, "%d", &n); err == nil && fmt.Sprint(n) == s {
		return n, true
	}
	return 0, false
}

// ---- helpers ----

func isDriverConn(t types.Type) bool {
	n := namedOf(t)
	return n != nil && n.Obj().Pkg() != nil && strings.Contains(n.Obj().Pkg().Path(), "clickhouse-go") && (n.Obj().Name() == "Conn" || n.Obj().Name() == "Rows" || n.Obj().Name() == "Row")
}

// constQuery: the constant text of a query argument (a constant, or the constant format of a fmt.Sprintf).
func constQuery(v ssa.Value) string {
	if s, ok := constStr(v); ok {
		return s
	}
	if call, ok := v.(*ssa.Call); ok {
		if sc := call.Common().StaticCallee(); sc != nil && sc.String() == "fmt.Sprintf" && len(call.Common().Args) > 0 {
			if s, ok := constStr(call.Common().Args[0]); ok {
				return s
			}
		}
	}
	return ""
}

// errCheckedNilSucc: the error result of the call is compared with nil; returns the block entered when it is nil.
func errNilSucc(errv ssa.Value) *ssa.BasicBlock {
	if errv == nil || errv.Referrers() == nil {
		return nil
	}
	for _, r := range *errv.Referrers() {
		cmp, ok := r.(*ssa.BinOp)
		if !ok || (cmp.Op != token.NEQ && cmp.Op != token.EQL) || cmp.Referrers() == nil {
			continue
		}
		for _, rr := range *cmp.Referrers() {
			if iff, ok := rr.(*ssa.If); ok {
				if cmp.Op == token.NEQ {
					return iff.Block().Succs[1]
				}
				return iff.Block().Succs[0]
			}
		}
	}
	return nil
}

// errLeaves: the error value is returned by the function when it is non-nil (tested and returned, or returned directly).
func errLeaves(errv ssa.Value) bool {
	if errv == nil || errv.Referrers() == nil {
		return false
	}
	for _, r := range *errv.Referrers() {
		switch x := r.(type) {
		case *ssa.Return:
			return true
		case *ssa.Phi:
			if errLeaves(x) {
				return true
			}
		case *ssa.BinOp:
			if (x.Op == token.NEQ || x.Op == token.EQL) && x.Referrers() != nil {
				for _, rr := range *x.Referrers() {
					if iff, ok := rr.(*ssa.If); ok {
						bad := iff.Block().Succs[0]
						if x.Op == token.EQL {
							bad = iff.Block().Succs[1]
						}
						// the non-nil branch ends in a return
						for _, b := range reachableList(bad, 4) {
							if len(b.Instrs) > 0 {
								if _, isRet := b.Instrs[len(b.Instrs)-1].(*ssa.Return); isRet {
									return true
								}
							}
						}
					}
				}
			}
		}
	}
	return false
}

func reachableList(from *ssa.BasicBlock, depth int) []*ssa.BasicBlock {
	var out []*ssa.BasicBlock
	seen := map[*ssa.BasicBlock]bool{}
	var walk func(b *ssa.BasicBlock, d int)
	walk = func(b *ssa.BasicBlock, d int) {
		if seen[b] || d > depth {
			return
		}
		seen[b] = true
		out = append(out, b)
		for _, s := range b.Succs {
			walk(s, d+1)
		}
	}
	walk(from, 0)
	return out
}

// callSitesIn: static call sites of callee in live module code.
func callSitesOf(c *Ctx, callee *ssa.Function) []ssa.CallInstruction {
	var out []ssa.CallInstruction
	for _, in := range c.CG().reverseVTA()[callee] {
		// the compiler-made pointer-receiver twin of a value method calls the method too; it is not a call site of the program
		if in.edge.Site != nil && !in.edge.Fallback && in.edge.Site.Common().StaticCallee() == callee && in.edge.Site.Parent().Synthetic == "" {
			out = append(out, in.edge.Site)
		}
	}
	return out
}

var ruleA5 = &Rule{
	ID:    "A5",
	Floor: 6,
	Doc: "version after script (SSA, interprocedural): the version write is the driver call Exec(\"INSERT INTO ver …\", k, v). (1) It is dominated by the success edge of the error check of a script execution — a call with one string argument S returning an error — in the same function. " +
		"(2) S is element number X of the script list and v = X + 1 as linear forms over SSA values (index loop `scripts[i]`, or range over `scripts[start:]` where X = start + n); when S and v are parameters of a helper, the arguments at its call site are substituted. (3) The loop runs from the recorded version to the end of the list in steps of one. " +
		"(4) The start value derives from a value scanned out of `SELECT max(ver) … WHERE k = $1` whose argument is the same stream id as the one written (after substituting helper parameters). (5) The errors of the version write and of the version query leave the function",
	Run: func(c *Ctx) []Obl {
		var obls []Obl
		found := false
		for _, fw := range liveModuleFuncs(c, "ctrl") {
			for _, b := range fw.Blocks {
				for _, ins := range b.Instrs {
					w, ok := ins.(*ssa.Call)
					if !ok || !w.Common().IsInvoke() || w.Common().Method.Name() != "Exec" || !isDriverConn(w.Common().Value.Type()) || len(w.Common().Args) < 3 {
						continue
					}
					q := strings.ToUpper(strings.Join(strings.Fields(constQuery(w.Common().Args[1])), " "))
					if !strings.HasPrefix(q, "INSERT INTO VER") {
						continue
					}
					found = true
					name := ssaName(fw)
					add := func(k string, ok bool, pos token.Pos, msg string) {
						st := OK
						if !ok {
							st = Violation
						} else {
							msg = ""
						}
						obls = append(obls, Obl{Key: name + " " + k, Pos: c.pos(pos), Status: st, Msg: msg})
					}
					elems := variadicElems(w.Common().Args[2])
					var kVal, vVal ssa.Value
					// order of the packed arguments = order of IndexAddr constants
					if sl, ok := w.Common().Args[2].(*ssa.Slice); ok {
						if al, ok := sl.X.(*ssa.Alloc); ok && al.Referrers() != nil {
							for _, r := range *al.Referrers() {
								if ia, ok := r.(*ssa.IndexAddr); ok && ia.Referrers() != nil {
									idx, _ := ia.Index.(*ssa.Const)
									for _, rr := range *ia.Referrers() {
										if st, ok := rr.(*ssa.Store); ok && idx != nil {
											if n, ok := int64Of(idx); ok && n == 0 {
												kVal = st.Val
											} else if ok && n == 1 {
												vVal = st.Val
											}
										}
									}
								}
							}
						}
					}
					_ = elems
					if kVal == nil || vVal == nil {
						add("version row arguments", false, w.Pos(), "the stream id / version arguments of the version INSERT are not recognised")
						continue
					}
					// (1) script execution whose success dominates the write
					var execCall *ssa.Call
					var scriptVal ssa.Value
					for _, eb := range fw.Blocks {
						for _, ei := range eb.Instrs {
							call, ok := ei.(*ssa.Call)
							if !ok || call == w || len(call.Common().Args) < 1 {
								continue
							}
							sig := call.Common().Signature()
							if sig == nil || sig.Results().Len() != 1 || !types.Identical(sig.Results().At(0).Type(), types.Universe.Lookup("error").Type()) {
								continue
							}
							args := call.Common().Args
							first := args[0]
							if b, ok := first.Type().Underlying().(*types.Basic); !ok || b.Info()&types.IsString == 0 {
								continue
							}
							if call.Common().IsInvoke() || call.Common().StaticCallee() != nil && !isModuleFn(call.Common().StaticCallee()) {
								continue
							}
							ns := errNilSucc(call)
							if ns != nil && len(ns.Preds) == 1 && (ns == b || ns.Dominates(b)) {
								execCall, scriptVal = call, first
							}
						}
					}
					add("script executed before its version", execCall != nil, w.Pos(),
						"the version INSERT must be reachable only through the `err == nil` edge of the script execution; otherwise a version is recorded for a statement that failed or did not run")
					if execCall == nil {
						continue
					}
					// (2) lift to the function that holds the loop
					loopFn := fw
					subst := map[ssa.Value]ssa.Value{}
					sV, vV, kV := scriptVal, vVal, kVal
					if mi, ok := kV.(*ssa.MakeInterface); ok {
						kV = mi.X
					}
					for hop := 0; hop < 3; hop++ {
						if _, isParam := sV.(*ssa.Parameter); !isParam {
							break
						}
						sites := callSitesOf(c, loopFn)
						if len(sites) != 1 {
							break
						}
						site := sites[0]
						callee := loopFn
						ns := map[ssa.Value]ssa.Value{}
						for i, p := range callee.Params {
							if i < len(site.Common().Args) {
								ns[p] = site.Common().Args[i]
							}
						}
						// compose: existing substitutions map helper params to values of `callee`, which may themselves be params
						for k2, v2 := range subst {
							if nv, ok := ns[v2]; ok {
								subst[k2] = nv
							}
						}
						for k2, v2 := range ns {
							subst[k2] = v2
						}
						if nv, ok := ns[sV]; ok {
							sV = nv
						}
						if p, ok := kV.(*ssa.Parameter); ok {
							if nv, ok := ns[p]; ok {
								kV = nv
							}
						}
						loopFn = site.Parent()
					}
					var base, idx ssa.Value
					if u, ok := sV.(*ssa.UnOp); ok && u.Op == token.MUL {
						if ia, ok := u.X.(*ssa.IndexAddr); ok {
							base, idx = ia.X, ia.Index
						}
					}
					if ix, ok := sV.(*ssa.Index); ok {
						base, idx = ix.X, ix.Index
					}
					if base == nil {
						add("version row is (stream id, i+1)", false, w.Pos(), "the executed script is not an element of a script list (followed through one helper level per call site): its index cannot be related to the recorded version")
						continue
					}
					abs := linOf(idx, subst, 0)
					open := true
					var start ssa.Value
					if sl, ok := base.(*ssa.Slice); ok {
						if sl.High != nil || sl.Max != nil {
							open = false
						}
						if sl.Low != nil {
							abs = abs.plus(linOf(sl.Low, subst, 0), 1)
							start = sl.Low
						}
						base = sl.X
					}
					got := linOf(vV, subst, 0)
					want := abs.plus(vlin{terms: map[ssa.Value]int64{}, k: 1}, 1)
					add("version row is (stream id, i+1)", got.eq(want), w.Pos(),
						fmt.Sprintf("the version recorded is %s but the statement just executed has absolute index %s: the row must be that index plus one — after a resumed run the recorded version would not be the number of statements applied", got.String(), abs.String()))
					// (3) loop shape: the counter is a phi stepping by one, compared with the length of the list
					var counter *ssa.Phi
					idxV := idx
					// the index may be a parameter of a helper that runs one script: the loop is at its (single) call site
					for hop := 0; hop < 3; hop++ {
						var ip *ssa.Parameter
						for v := range linOf(idxV, nil, 0).terms {
							if p, ok := v.(*ssa.Parameter); ok && p.Parent() == loopFn {
								ip = p
							}
						}
						if ip == nil {
							break
						}
						sites := callSitesOf(c, loopFn)
						if len(sites) != 1 {
							break
						}
						for i, p := range loopFn.Params {
							if p == ip && i < len(sites[0].Common().Args) {
								idxV = sites[0].Common().Args[i]
							}
						}
						loopFn = sites[0].Parent()
					}
					for v := range linOf(idxV, nil, 0).terms {
						if ph, ok := v.(*ssa.Phi); ok {
							counter = ph
						}
					}
					cover := false
					coverMsg := "the loop over the scripts is not recognised as running from the recorded version to the end of the list in steps of one"
					if counter != nil {
						stepOK, boundOK := false, false
						var initV ssa.Value
						for _, e := range counter.Edges {
							l := linOf(e, nil, 0)
							if l.terms[counter] == 1 && len(l.terms) == 1 && l.k == 1 {
								stepOK = true
							} else {
								initV = e
							}
						}
						// bound: some branch compares (a linear function of) the counter with len(list)
						for _, lb := range loopFn.Blocks {
							if len(lb.Instrs) == 0 {
								continue
							}
							iff, ok := lb.Instrs[len(lb.Instrs)-1].(*ssa.If)
							if !ok {
								continue
							}
							cmp, ok := iff.Cond.(*ssa.BinOp)
							if !ok || cmp.Op != token.LSS {
								continue
							}
							if linOf(cmp.X, nil, 0).terms[counter] != 1 {
								continue
							}
							y := cmp.Y
							for {
								if cv, ok := y.(*ssa.Convert); ok {
									y = cv.X
									continue
								}
								break
							}
							if lc, ok := y.(*ssa.Call); ok {
								if bi, ok := lc.Common().Value.(*ssa.Builtin); ok && bi.Name() == "len" {
									la := lc.Common().Args[0]
									if la == base || canon(la) == canon(base) || sameExpr(la, base, 0) || sameFieldLoad(la, base) || (func() bool { s, ok := la.(*ssa.Slice); return ok && s.X == base })() {
										boundOK = true
									}
								}
							}
						}
						if start == nil {
							start = initV
						} else if initV != nil {
							// range loop: the hidden counter starts at -1 and the first index is 0
							if k, ok := initV.(*ssa.Const); !ok || k.Value == nil || k.Value.ExactString() != "-1" {
								stepOK = false
							}
						}
						cover = stepOK && boundOK && open
					}
					add("loop covers every statement from the recorded version", cover, w.Pos(), coverMsg)
					// (4) start derives from the scanned max(ver) of the same stream
					okInit := false
					if start != nil {
						// the start value may be a parameter of the function holding the loop: continue at its call sites
						paramBindings = map[*ssa.Parameter][]ssa.Value{}
						autoBindParams = true
						for _, site := range callSitesOf(c, loopFn) {
							if call, ok := site.(*ssa.Call); ok {
								bindCallParams(call, loopFn)
							}
						}
						var scannedPtr func(al ssa.Value) bool
						startPred := func(v ssa.Value) bool {
							switch x := v.(type) {
							case *ssa.Alloc:
								return scannedPtr(x)
							case *ssa.UnOp:
								// a field of the run object: scanned into through the same field in another of its methods
								fa, ok := x.X.(*ssa.FieldAddr)
								if !ok || x.Op != token.MUL {
									return false
								}
								fk := fieldKey(fa.X.Type(), fa.Field)
								for _, fn := range liveModuleFuncs(c, "ctrl") {
									for _, fb := range fn.Blocks {
										for _, fi := range fb.Instrs {
											if f2, ok := fi.(*ssa.FieldAddr); ok && fieldKey(f2.X.Type(), f2.Field) == fk && scannedPtr(f2) {
												return true
											}
										}
									}
								}
							}
							return false
						}
						scannedPtr = func(al ssa.Value) bool {
							if al.Referrers() == nil {
								return false
							}
							// &ver passed to a Scan whose rows come from the max(ver) query with the stream id
							for _, r := range *al.Referrers() {
								mi, ok := r.(*ssa.MakeInterface)
								if !ok || mi.Referrers() == nil {
									continue
								}
								scanned := false
								var scanFn *ssa.Function
								for _, rr := range *mi.Referrers() {
									if stx, ok := rr.(*ssa.Store); ok {
										if ia, ok := stx.Addr.(*ssa.IndexAddr); ok {
											if arr, ok := ia.X.(*ssa.Alloc); ok && arr.Referrers() != nil {
												for _, ar := range *arr.Referrers() {
													if sl, ok := ar.(*ssa.Slice); ok && sl.Referrers() != nil {
														for _, sr := range *sl.Referrers() {
															if call, ok := sr.(*ssa.Call); ok && call.Common().IsInvoke() && call.Common().Method.Name() == "Scan" {
																scanned = true
																scanFn = call.Parent()
															}
														}
													}
												}
											}
										}
									}
								}
								if !scanned || scanFn == nil {
									continue
								}
								// the query in the scanning function
								for _, qb := range scanFn.Blocks {
									for _, qi := range qb.Instrs {
										qc, ok := qi.(*ssa.Call)
										if !ok || !qc.Common().IsInvoke() || qc.Common().Method.Name() != "Query" || len(qc.Common().Args) < 3 {
											continue
										}
										qt := strings.ToUpper(constQuery(qc.Common().Args[1]))
										if !strings.Contains(qt, "MAX(VER)") {
											continue
										}
										for _, qa := range variadicElems(qc.Common().Args[2]) {
											if mi, ok := qa.(*ssa.MakeInterface); ok {
												qa = mi.X
											}
											// lift the query's stream id to the loop function
											if p, ok := qa.(*ssa.Parameter); ok && scanFn != loopFn {
												for _, site := range callSitesOf(c, scanFn) {
													if site.Parent() == loopFn {
														for i, pp := range scanFn.Params {
															if pp == p && i < len(site.Common().Args) {
																qa = site.Common().Args[i]
															}
														}
													}
												}
											}
											if qa == kV || canon(qa) == canon(kV) || sameFieldLoad(qa, kV) {
												return true
											}
											// version read and script loop are sibling stages of one caller: compare the stream ids both receive there
											if p, ok := qa.(*ssa.Parameter); ok && scanFn != loopFn {
												if kp, ok := kV.(*ssa.Parameter); ok && kp.Parent() == loopFn {
													for _, site := range callSitesOf(c, scanFn) {
														F := site.Parent()
														var qaF, kF ssa.Value
														for i, pp := range scanFn.Params {
															if pp == p && i < len(site.Common().Args) {
																qaF = site.Common().Args[i]
															}
														}
														for _, s2 := range callSitesOf(c, loopFn) {
															if s2.Parent() != F {
																continue
															}
															for i, pp := range loopFn.Params {
																if pp == kp && i < len(s2.Common().Args) {
																	kF = s2.Common().Args[i]
																}
															}
														}
														if qaF != nil && kF != nil && (qaF == kF || canon(qaF) == canon(kF) || sameFieldLoad(qaF, kF)) {
															return true
														}
													}
												}
											}
										}
									}
								}
							}
							return false
						}
						okInit = dependsOnValue(start, startPred, map[ssa.Value]bool{}, 0)
						paramBindings, autoBindParams = nil, false
					}
					add("loop starts at the version recorded for this stream", okInit, w.Pos(),
						"the loop must start from the value scanned from `SELECT max(ver) … WHERE k = <this stream>`; otherwise completed statements are re-run or pending ones skipped")
					// (5) errors leave
					add("version write error checked", errLeaves(w), w.Pos(), "a failed version INSERT must abort the run")
					qOK := false
					for _, fn := range liveModuleFuncs(c, "ctrl") {
						for _, qb := range fn.Blocks {
							for _, qi := range qb.Instrs {
								if ex, ok := qi.(*ssa.Extract); ok && ex.Index == 1 {
									if qc, ok := ex.Tuple.(*ssa.Call); ok && qc.Common().IsInvoke() && qc.Common().Method.Name() == "Query" && len(qc.Common().Args) >= 2 {
										if strings.Contains(strings.ToUpper(constQuery(qc.Common().Args[1])), "MAX(VER)") && errLeaves(ex) {
											qOK = true
										}
									}
								}
							}
						}
					}
					add("version query error checked", qOK, w.Pos(), "a failed version query must abort the run (ver would silently be 0 and every statement re-run)")
				}
			}
		}
		if !found {
			obls = append(obls, Obl{Key: "ctrl: version write", Pos: "-", Status: Undecided, Msg: "no `INSERT INTO ver` driver call found in the live code of ctrl/"})
		}
		return obls
	},
}

// sameFieldLoad: both values are loads of the same field of objects of one struct type (a run object's stream id read in two of
// its methods).
func sameFieldLoad(a, b ssa.Value) bool {
	la, ok1 := a.(*ssa.UnOp)
	lb, ok2 := b.(*ssa.UnOp)
	if !ok1 || !ok2 || la.Op != token.MUL || lb.Op != token.MUL {
		return false
	}
	fa, ok1 := la.X.(*ssa.FieldAddr)
	fb, ok2 := lb.X.(*ssa.FieldAddr)
	return ok1 && ok2 && fieldKey(fa.X.Type(), fa.Field) == fieldKey(fb.X.Type(), fb.Field)
}

func init() { register(ruleA5) }
