package main

// L1 on SSA: the label fingerprint is order-independent by construction.

import (
	"fmt"
	"go/token"
	"go/types"
	"sort"

	"golang.org/x/tools/go/ssa"
)

// sameElem: two addresses of the same element of one array / slice (constant index) or the same scalar cell.
func sameElem(a, b ssa.Value) bool {
	if a == b {
		return true
	}
	x, ok1 := a.(*ssa.IndexAddr)
	y, ok2 := b.(*ssa.IndexAddr)
	if ok1 && ok2 {
		kx, okx := x.Index.(*ssa.Const)
		ky, oky := y.Index.(*ssa.Const)
		return okx && oky && kx.Value != nil && ky.Value != nil && kx.Value.ExactString() == ky.Value.ExactString() && canon(x.X) == canon(y.X)
	}
	return false
}

var ruleL1 = &Rule{
	ID:    "L1",
	Floor: 3,
	Doc: "order-independent fingerprint by construction (SSA): in the writer's label fingerprint routine every store executed inside the loop over the labels — in the routine itself or in a module function called from the loop (an accumulator object's method) — that writes a uint64 cell living across iterations is acc = acc ⊕ g with ⊕ ∈ {+, ^, *} (commutative and associative on uint64) and the same cell on both sides; " +
		"g depends neither on an accumulator nor on the position (the loop counter may only select the current label); the accumulators are read for the final hash only after the loop",
	Run: func(c *Ctx) []Obl {
		fn := c.SSAFunc("writer/utils/unmarshal", "fingerprintLabels")
		name := "writer/utils/unmarshal.fingerprintLabels"
		if fn == nil || len(fn.Blocks) == 0 {
			return []Obl{{Key: name, Pos: "-", Status: Undecided, Msg: "anchor not found"}}
		}
		// loop blocks
		loop := map[*ssa.BasicBlock]bool{}
		for _, b := range fn.Blocks {
			if cyc := inCycle(b); cyc != nil {
				for k := range cyc {
					loop[k] = true
				}
			}
		}
		if len(loop) == 0 {
			return []Obl{{Key: name + " loop over labels", Pos: c.pos(fn.Pos()), Status: Undecided, Msg: "no loop"}}
		}
		// header phis = loop counters
		counters := map[ssa.Value]bool{}
		for b := range loop {
			for _, ins := range b.Instrs {
				if ph, ok := ins.(*ssa.Phi); ok {
					counters[ph] = true
				}
			}
		}
		type upd struct {
			st   *ssa.Store
			bind map[*ssa.Parameter]ssa.Value
			in   *ssa.Function
		}
		var upds []upd
		var collect func(f *ssa.Function, blocks map[*ssa.BasicBlock]bool, bind map[*ssa.Parameter]ssa.Value, depth int)
		collect = func(f *ssa.Function, blocks map[*ssa.BasicBlock]bool, bind map[*ssa.Parameter]ssa.Value, depth int) {
			for _, b := range f.Blocks {
				if blocks != nil && !blocks[b] {
					continue
				}
				for _, ins := range b.Instrs {
					switch x := ins.(type) {
					case *ssa.Store:
						if bt, ok := x.Val.Type().Underlying().(*types.Basic); ok && bt.Kind() == types.Uint64 {
							upds = append(upds, upd{x, bind, f})
						}
					case *ssa.Call:
						sc := x.Common().StaticCallee()
						if sc == nil || !isModuleFn(sc) || depth >= 2 || fnPkgRel(sc) != "writer/utils/unmarshal" {
							continue
						}
						nb := map[*ssa.Parameter]ssa.Value{}
						for k, v := range bind {
							nb[k] = v
						}
						for i, p := range sc.Params {
							if i < len(x.Common().Args) {
								nb[p] = x.Common().Args[i]
							}
						}
						collect(sc, nil, nb, depth+1)
					}
				}
			}
		}
		collect(fn, loop, map[*ssa.Parameter]ssa.Value{}, 0)
		// only cells that live across iterations: not allocated inside the loop / the callee
		resolve := func(v ssa.Value, bind map[*ssa.Parameter]ssa.Value) ssa.Value {
			for i := 0; i < 4; i++ {
				if p, ok := v.(*ssa.Parameter); ok {
					if a, ok := bind[p]; ok {
						v = a
						continue
					}
				}
				break
			}
			return v
		}
		baseOf := func(addr ssa.Value, bind map[*ssa.Parameter]ssa.Value) ssa.Value {
			if ia, ok := addr.(*ssa.IndexAddr); ok {
				return canon(resolve(ia.X, bind))
			}
			return canon(resolve(addr, bind))
		}
		accBases := map[ssa.Value]bool{}
		var accs []upd
		for _, u := range upds {
			base := baseOf(u.st.Addr, u.bind)
			if al, ok := base.(*ssa.Alloc); ok {
				if al.Parent() != fn || loop[al.Block()] {
					continue // a temporary of one iteration / of the callee
				}
			}
			accBases[base] = true
			accs = append(accs, u)
		}
		var obls []Obl
		okShape := true
		// g must not depend on an accumulator or on the position
		var tainted func(v ssa.Value, bind map[*ssa.Parameter]ssa.Value, seen map[ssa.Value]bool, depth int) string
		tainted = func(v ssa.Value, bind map[*ssa.Parameter]ssa.Value, seen map[ssa.Value]bool, depth int) string {
			if v == nil || seen[v] || depth > 30 {
				return ""
			}
			seen[v] = true
			if counters[v] {
				return "the position in the label list"
			}
			switch x := v.(type) {
			case *ssa.Parameter:
				if a, ok := bind[x]; ok {
					return tainted(a, bind, seen, depth+1)
				}
				return ""
			case *ssa.UnOp:
				if x.Op == token.MUL {
					if accBases[baseOf(x.X, bind)] {
						return "an accumulator"
					}
				}
			case *ssa.IndexAddr:
				// selecting the current label by the loop counter is not a dependence on the position
				return tainted(x.X, bind, seen, depth+1)
			case *ssa.Index:
				return tainted(x.X, bind, seen, depth+1)
			}
			if ins, ok := v.(ssa.Instruction); ok {
				for _, op := range ins.Operands(nil) {
					if *op != nil {
						if why := tainted(*op, bind, seen, depth+1); why != "" {
							return why
						}
					}
				}
			}
			return ""
		}
		sort.SliceStable(accs, func(i, j int) bool { return accs[i].st.Pos() < accs[j].st.Pos() })
		for i, u := range accs {
			key := fmt.Sprintf("%s accumulator #%d updated commutatively", name, i+1)
			bo, ok := u.st.Val.(*ssa.BinOp)
			bad := ""
			if !ok || (bo.Op != token.ADD && bo.Op != token.XOR && bo.Op != token.MUL) {
				bad = "the update is not acc = acc ⊕ g with ⊕ ∈ {+, ^, *}"
			} else {
				isAccLoad := func(v ssa.Value) bool {
					ld, ok := v.(*ssa.UnOp)
					return ok && ld.Op == token.MUL && sameElem(ld.X, u.st.Addr)
				}
				var g ssa.Value
				switch {
				case isAccLoad(bo.X):
					g = bo.Y
				case isAccLoad(bo.Y):
					g = bo.X
				default:
					bad = "the stored value is not computed from the previous value of the same cell"
				}
				if g != nil {
					if why := tainted(g, u.bind, map[ssa.Value]bool{}, 0); why != "" {
						bad = "the combined value depends on " + why
					}
				}
			}
			if bad == "" {
				obls = append(obls, Obl{Key: key, Pos: c.pos(u.st.Pos()), Status: OK, Msg: bo.Op.String()})
			} else {
				okShape = false
				obls = append(obls, Obl{Key: key, Pos: c.pos(u.st.Pos()), Status: Violation, Msg: bad + ": two orders of the same label set can give different fingerprints"})
			}
		}
		st, msg := OK, fmt.Sprintf("%d accumulators", len(accs))
		if len(accs) == 0 || !okShape {
			st, msg = Violation, "the fingerprint loop does not have the accumulate-commutatively shape"
		}
		obls = append(obls, Obl{Key: name + " loop shape", Pos: c.pos(fn.Pos()), Status: st, Msg: msg})
		return obls
	},
}
