package main

// A2 (SSA, interprocedural): acknowledge after wait.

import (
	"fmt"
	"go/token"
	"go/types"
	"sort"
	"strings"

	"golang.org/x/tools/go/ssa"
)

func isPromiseGet(sc *ssa.Function) bool {
	return sc != nil && strings.HasPrefix(sc.Name(), "Get") && strings.Contains(sc.String(), "/writer/utils/promise.Promise")
}

// sliceFamily: the SSA values that denote one growing collection (phis, append results, re-slices, local cells).
func sliceFamily(seed ssa.Value) map[ssa.Value]bool {
	fam := map[ssa.Value]bool{}
	var add func(v ssa.Value)
	add = func(v ssa.Value) {
		if v == nil || fam[v] {
			return
		}
		if _, ok := v.Type().Underlying().(*types.Slice); !ok {
			if _, isPtr := v.Type().Underlying().(*types.Pointer); !isPtr {
				return
			}
		}
		fam[v] = true
		switch x := v.(type) {
		case *ssa.Phi:
			for _, e := range x.Edges {
				add(e)
			}
		case *ssa.Call:
			if bi, ok := x.Common().Value.(*ssa.Builtin); ok && bi.Name() == "append" && len(x.Common().Args) > 0 {
				add(x.Common().Args[0])
			}
		case *ssa.Slice:
			add(x.X)
		case *ssa.UnOp:
			if x.Op == token.MUL {
				if a, ok := x.X.(*ssa.Alloc); ok {
					add(a)
				}
			}
		case *ssa.Alloc:
			if refs := x.Referrers(); refs != nil {
				for _, r := range *refs {
					if st, ok := r.(*ssa.Store); ok && st.Addr == ssa.Value(x) {
						add(st.Val)
					}
				}
			}
		}
		if refs := v.Referrers(); refs != nil {
			for _, r := range *refs {
				switch y := r.(type) {
				case *ssa.Phi:
					add(y)
				case *ssa.Slice:
					if y.X == v {
						add(y)
					}
				case *ssa.Call:
					if bi, ok := y.Common().Value.(*ssa.Builtin); ok && bi.Name() == "append" && len(y.Common().Args) > 0 && y.Common().Args[0] == v {
						add(y)
					}
				case *ssa.Store:
					if y.Val == v {
						if a, ok := y.Addr.(*ssa.Alloc); ok {
							add(a)
						}
					}
				case *ssa.UnOp:
					if y.Op == token.MUL && y.X == v {
						add(y)
					}
				}
			}
		}
	}
	add(seed)
	return fam
}

// promiseFamily: sliceFamily closed under "all elements appended to another collection" (append(other, v...)).
func promiseFamily(seed ssa.Value) map[ssa.Value]bool {
	fam := sliceFamily(seed)
	for changed := true; changed; {
		changed = false
		for v := range fam {
			refs := v.Referrers()
			if refs == nil {
				continue
			}
			for _, r := range *refs {
				app, ok := r.(*ssa.Call)
				if !ok || fam[app] {
					continue
				}
				if bi, ok := app.Common().Value.(*ssa.Builtin); ok && bi.Name() == "append" && len(app.Common().Args) == 2 && app.Common().Args[1] == v {
					for k := range sliceFamily(app) {
						fam[k] = true
					}
					changed = true
				}
			}
		}
	}
	return fam
}

type awaitAnalysis struct {
	memo map[string]bool
}

// awaitLoops: exit blocks of loops in fn that call Get on every element of a slice of the family and leave early only with an error.
func (a *awaitAnalysis) awaitExits(fn *ssa.Function, fam map[ssa.Value]bool) []*ssa.BasicBlock {
	var out []*ssa.BasicBlock
	for _, b := range fn.Blocks {
		for _, ins := range b.Instrs {
			call, ok := ins.(*ssa.Call)
			if !ok || !isPromiseGet(call.Common().StaticCallee()) || len(call.Common().Args) == 0 {
				continue
			}
			// receiver: element of a family slice
			recv := call.Common().Args[0]
			var idx ssa.Value
			var sl ssa.Value
			if u, ok := recv.(*ssa.UnOp); ok && u.Op == token.MUL {
				if ia, ok := u.X.(*ssa.IndexAddr); ok && fam[ia.X] {
					idx, sl = ia.Index, ia.X
				}
			}
			if ix, ok := recv.(*ssa.Index); ok && fam[ix.X] {
				idx, sl = ix.Index, ix.X
			}
			if sl == nil {
				continue
			}
			// the loop header: a block dominating the Get whose branch compares the index with len(slice of the family)
			for _, h := range fn.Blocks {
				if !h.Dominates(b) || len(h.Instrs) == 0 {
					continue
				}
				iff, ok := h.Instrs[len(h.Instrs)-1].(*ssa.If)
				if !ok {
					continue
				}
				cmp, ok := iff.Cond.(*ssa.BinOp)
				if !ok || cmp.Op != token.LSS {
					continue
				}
				lenOK := false
				if lc, ok := cmp.Y.(*ssa.Call); ok {
					if bi, ok := lc.Common().Value.(*ssa.Builtin); ok && bi.Name() == "len" && fam[lc.Common().Args[0]] {
						lenOK = true
					}
				}
				if !lenOK || (cmp.X != idx && !sameIndexVar(cmp.X, idx)) {
					continue
				}
				exit := h.Succs[1]
				// no break: the exit is entered from the header only
				if len(exit.Preds) == 1 {
					out = append(out, exit)
				}
			}
		}
	}
	return out
}

// sameIndexVar: the compared value and the indexing value are the same loop counter (the range form compares i+1 and indexes with it).
func sameIndexVar(a, b ssa.Value) bool {
	strip := func(v ssa.Value) ssa.Value {
		if bo, ok := v.(*ssa.BinOp); ok && bo.Op == token.ADD {
			if _, isK := bo.Y.(*ssa.Const); isK {
				return bo.X
			}
		}
		return v
	}
	return a == b || strip(a) == strip(b) || strip(a) == b || a == strip(b)
}

// nonNilHere: the returned error value is known to be non-nil at the return (guarded by `e != nil`, or freshly constructed).
func nonNilHere(r *ssa.Return, e ssa.Value) bool {
	if call, ok := e.(*ssa.Call); ok {
		if sc := call.Common().StaticCallee(); sc != nil {
			s := sc.String()
			if s == "fmt.Errorf" || s == "errors.New" || strings.Contains(s, "custom_errors.New") || strings.Contains(s, "customErrors.New") {
				return true
			}
		}
	}
	if _, ok := e.(*ssa.MakeInterface); ok {
		return true // a concrete error value boxed into the interface
	}
	same := func(x ssa.Value) bool {
		if x == e {
			return true
		}
		// two loads of one field / cell
		lx, ok1 := x.(*ssa.UnOp)
		le, ok2 := e.(*ssa.UnOp)
		if ok1 && ok2 && lx.Op == token.MUL && le.Op == token.MUL {
			fx, ok3 := lx.X.(*ssa.FieldAddr)
			fe, ok4 := le.X.(*ssa.FieldAddr)
			if ok3 && ok4 && fx.Field == fe.Field && canon(fx.X) == canon(fe.X) {
				return true
			}
			if lx.X == le.X {
				return true
			}
		}
		return false
	}
	for _, b := range r.Parent().Blocks {
		if len(b.Instrs) == 0 {
			continue
		}
		iff, ok := b.Instrs[len(b.Instrs)-1].(*ssa.If)
		if !ok {
			continue
		}
		cmp, ok := iff.Cond.(*ssa.BinOp)
		if !ok {
			continue
		}
		isNilK := func(v ssa.Value) bool { k, ok := v.(*ssa.Const); return ok && k.Value == nil }
		var tested ssa.Value
		if isNilK(cmp.Y) {
			tested = cmp.X
		} else if isNilK(cmp.X) {
			tested = cmp.Y
		}
		if tested == nil || !same(tested) {
			continue
		}
		var nonNilSucc *ssa.BasicBlock
		switch cmp.Op {
		case token.NEQ:
			nonNilSucc = b.Succs[0]
		case token.EQL:
			nonNilSucc = b.Succs[1]
		}
		if nonNilSucc != nil && len(nonNilSucc.Preds) == 1 && (nonNilSucc == r.Block() || nonNilSucc.Dominates(r.Block())) {
			return true
		}
	}
	return false
}

// okReturns: every return of fn either yields an error known to be non-nil, or yields nil only after an awaiting loop over the
// family completed, or yields the result of a helper that awaits the family.
func (a *awaitAnalysis) okReturns(fn *ssa.Function, fam map[ssa.Value]bool, depth int) (bool, string, token.Pos) {
	exits := a.awaitExits(fn, fam)
	for _, r := range returnsOf(fn) {
		if len(r.Results) == 0 {
			continue
		}
		e := r.Results[len(r.Results)-1]
		if k, ok := e.(*ssa.Const); ok && k.Value == nil {
			dominated := false
			for _, x := range exits {
				if x == r.Block() || x.Dominates(r.Block()) {
					dominated = true
				}
			}
			if !dominated {
				return false, "a success return is not preceded by the wait over all promises", r.Pos()
			}
			continue
		}
		if nonNilHere(r, e) {
			continue
		}
		if call, ok := e.(*ssa.Call); ok && depth < 3 {
			if sc := call.Common().StaticCallee(); sc != nil && isModuleFn(sc) {
				passed := false
				for i, arg := range call.Common().Args {
					if fam[arg] && i < len(sc.Params) {
						passed = true
						if ok, why, _ := a.okReturns(sc, sliceFamily(sc.Params[i]), depth+1); !ok {
							return false, "the helper " + ssaName(sc) + " does not wait for every promise: " + why, r.Pos()
						}
					}
				}
				if passed {
					continue
				}
			}
		}
		return false, "a return whose value is not known to be a non-nil error may report success before the inserts finished", r.Pos()
	}
	return true, "", token.NoPos
}

var ruleA2 = &Rule{
	ID:    "A2",
	Floor: 7,
	Doc: "acknowledge after wait (SSA, interprocedural): in every live function of writer/controller that calls doPush: each doPush result is appended to one promise collection (phis, appends and re-slices of one slice form a family); every request field of model.ParserResponse is handed to a doPush; " +
		"and every return of the function is one of: an error known to be non-nil at that point (tested `!= nil` on the dominating branch, or freshly constructed); nil, dominated by the exit of a loop that calls Get on every element of the collection and has no other exit than the loop condition (so an early leave is an error return); or the result of a helper that receives the collection and satisfies the same condition",
	Run: func(c *Ctx) []Obl {
		var obls []Obl
		a := &awaitAnalysis{memo: map[string]bool{}}
		found := false
		for _, fn := range liveModuleFuncs(c, "writer/controller") {
			var pushes []*ssa.Call
			for _, b := range fn.Blocks {
				for _, ins := range b.Instrs {
					if call, ok := ins.(*ssa.Call); ok {
						if sc := call.Common().StaticCallee(); sc != nil && sc.Name() == "doPush" && fnPkgRel(sc) == "writer/controller" {
							pushes = append(pushes, call)
						}
					}
				}
			}
			if len(pushes) == 0 {
				continue
			}
			found = true
			name := ssaName(fn)
			add := func(k string, ok bool, pos token.Pos, msg string) {
				st := OK
				if !ok {
					st = Violation
				} else {
					msg = ""
				}
				obls = append(obls, Obl{Key: name + " " + k, Pos: c.pos(pos), Status: st, Msg: msg})
			}
			// (1) collected into one family
			var fam map[ssa.Value]bool
			pushedFields := map[string]bool{}
			for _, push := range pushes {
				field := "?"
				if len(push.Common().Args) > 0 {
					v := push.Common().Args[0]
					if mi, ok := v.(*ssa.MakeInterface); ok {
						v = mi.X
					}
					if ci, ok := v.(*ssa.ChangeInterface); ok {
						v = ci.X
					}
					switch x := v.(type) {
					case *ssa.UnOp:
						if fa, ok := x.X.(*ssa.FieldAddr); ok {
							k := fieldKey(fa.X.Type(), fa.Field)
							field = k[strings.LastIndex(k, ".")+1:]
						}
					case *ssa.Field:
						k := fieldKey(x.X.Type(), x.Field)
						field = k[strings.LastIndex(k, ".")+1:]
					}
				}
				pushedFields[field] = true
				// the pushed part may be selected by accessor functions (a table of `func(resp) part` rows walked by a loop):
				// every field of the response that a possible callee hands back counts as pushed
				if len(push.Common().Args) > 0 {
					v := push.Common().Args[0]
					for {
						if mi, ok := v.(*ssa.MakeInterface); ok {
							v = mi.X
						} else if ci, ok := v.(*ssa.ChangeInterface); ok {
							v = ci.X
						} else {
							break
						}
					}
					if sel, ok := v.(*ssa.Call); ok {
						var callees []*ssa.Function
						if sc := sel.Common().StaticCallee(); sc != nil {
							callees = append(callees, sc)
						} else if !sel.Common().IsInvoke() {
							for _, e := range c.CG().vtaOut[push.Parent()] {
								if e.Site == ssa.CallInstruction(sel) && !e.Fallback {
									callees = append(callees, e.Callee)
								}
							}
						}
						var got []string
						for _, cal := range callees {
							if len(cal.Blocks) == 0 || !isModuleFn(cal) {
								continue
							}
							for _, r := range returnsOf(cal) {
								if len(r.Results) != 1 {
									continue
								}
								rv := r.Results[0]
								for {
									if mi, ok := rv.(*ssa.MakeInterface); ok {
										rv = mi.X
									} else if ci, ok := rv.(*ssa.ChangeInterface); ok {
										rv = ci.X
									} else {
										break
									}
								}
								var base ssa.Value
								var k string
								switch x := rv.(type) {
								case *ssa.UnOp:
									if fa, ok := x.X.(*ssa.FieldAddr); ok {
										base, k = fa.X, fieldKey(fa.X.Type(), fa.Field)
									}
								case *ssa.Field:
									base, k = x.X, fieldKey(x.X.Type(), x.Field)
								}
								if _, isParam := base.(*ssa.Parameter); isParam && k != "" {
									got = append(got, k[strings.LastIndex(k, ".")+1:])
								}
							}
						}
						sort.Strings(got)
						for _, f := range got {
							pushedFields[f] = true
						}
						if len(got) > 0 {
							field = "one of " + strings.Join(got, "/")
						}
					}
				}
				// the call result is an element packed for an append
				collected := false
				if refs := push.Referrers(); refs != nil {
					for _, r := range *refs {
						st, ok := r.(*ssa.Store)
						if !ok || st.Val != ssa.Value(push) {
							continue
						}
						ia, ok := st.Addr.(*ssa.IndexAddr)
						if !ok {
							continue
						}
						al, ok := ia.X.(*ssa.Alloc)
						if !ok || al.Referrers() == nil {
							continue
						}
						for _, ar := range *al.Referrers() {
							sl, ok := ar.(*ssa.Slice)
							if !ok || sl.Referrers() == nil {
								continue
							}
							for _, sr := range *sl.Referrers() {
								var seed ssa.Value
								if app, ok := sr.(*ssa.Call); ok {
									if bi, ok := app.Common().Value.(*ssa.Builtin); ok && bi.Name() == "append" {
										seed = app
									}
								}
								if _, ok := sr.(*ssa.Return); ok {
									seed = sl // a slice literal of the promises handed back to the caller
								}
								if seed == nil {
									continue
								}
								if fam == nil {
									fam = promiseFamily(seed)
									collected = true
								} else if fam[seed] {
									collected = true
								}
							}
						}
					}
				}
				add("doPush("+field+") result is collected", collected, push.Pos(),
					"the promise returned by doPush is not appended to the collection that is awaited: its rows may fail to insert while the request is acknowledged")
			}
			// (2) every request field of ParserResponse is pushed
			if mp := c.ByPathLoaded(pkgWModel); mp != nil {
				if o := mp.Types.Scope().Lookup("ParserResponse"); o != nil {
					st := o.Type().Underlying().(*types.Struct)
					var names []string
					for i := 0; i < st.NumFields(); i++ {
						if st.Field(i).Name() != "Error" {
							names = append(names, st.Field(i).Name())
						}
					}
					sort.Strings(names)
					for _, n := range names {
						add("ParserResponse."+n+" is pushed", pushedFields[n], fn.Pos(), "rows parsed into this field are never submitted to an insert service, yet the request is acknowledged")
					}
				}
			}
			// (3) returns — of the function itself, or, when it hands the collection back to its caller, of every caller
			if fam == nil {
				fam = map[ssa.Value]bool{}
			}
			producer := false
			for _, r := range returnsOf(fn) {
				if len(r.Results) > 0 && fam[r.Results[0]] {
					producer = true
				}
			}
			judge := func(driver *ssa.Function, dfam map[ssa.Value]bool) {
				name = ssaName(driver)
				ok, why, pos := a.okReturns(driver, dfam, 0)
				if pos == token.NoPos {
					pos = driver.Pos()
				}
				add("success is returned only after every promise was awaited", ok, pos, why+": rows may never be inserted although the request is acknowledged")
				add("waits for every promise", len(a.awaitExits(driver, dfam)) > 0 || ok, driver.Pos(), "no loop over the collected promises that calls Get and returns the error")
			}
			if !producer {
				judge(fn, fam)
				continue
			}
			sites := callSitesOf(c, fn)
			if len(sites) == 0 {
				add("the collected promises are awaited by a caller", false, fn.Pos(), "the function returns the promises but nothing calls it statically")
			}
			for _, site := range sites {
				v, ok := site.(ssa.Value)
				if !ok {
					add("the collected promises are awaited by a caller", false, site.Pos(), "the promises are produced by a call whose result is dropped (go / defer)")
					continue
				}
				judge(site.Parent(), promiseFamily(v))
			}
		}
		if !found {
			obls = append(obls, Obl{Key: "writer/controller.doPush callers", Pos: "-", Status: Undecided, Msg: fmt.Sprintf("no live function of writer/controller calls doPush")})
		}
		return obls
	},
}

func init() { register(ruleA2) }
