package main

import (
	"encoding/json"
	"fmt"
	"os"
	"sort"
	"strings"
)

// not claimed: property → reason (kept current by hand; `qvet manifest` writes MANIFEST.json)
var notApplicable = map[string]string{
	"C16": "numerical conservation of profile weights over runtime pprof contents and merge orders: no structural clause visible in the shape of the code implies it, and static analysis (the only technique family of this task) cannot bound sums over data-dependent maps; see DESIGN.md §5",
}

// properties whose checks are not built yet in this round are listed here with that reason and
// removed as soon as the check is registered.
var notYetBuilt = map[string]string{}

func init() {
	for _, id := range []string{} {
		notYetBuilt[id] = "static check designed (DESIGN.md §4) but not yet built and validated in this round; not claimed until it is"
	}
}

func cmdManifest() int {
	type check struct {
		PropertyID   string                 `json:"property_id"`
		QuickCmd     string                 `json:"quick_cmd"`
		ThoroughCmd  string                 `json:"thorough_cmd"`
		EvidenceFile string                 `json:"evidence_file"`
		ReplayCmd    string                 `json:"replay_cmd_template"`
		Engine       string                 `json:"engine"`
		Level        map[string]interface{} `json:"level_claimed"`
		LevelNote    string                 `json:"level_note"`
		Technique    string                 `json:"technique"`
	}
	var ids []string
	for id := range properties {
		ids = append(ids, id)
	}
	sort.Strings(ids)
	var checks []check
	for _, id := range ids {
		p := properties[id]
		rules := []string{}
		for _, r := range p.Rules {
			rules = append(rules, r)
		}
		checks = append(checks, check{
			PropertyID:   id,
			QuickCmd:     fmt.Sprintf("VERIF_TIER=quick ./bin/qvet check -property %s", id),
			ThoroughCmd:  fmt.Sprintf("VERIF_TIER=thorough ./bin/qvet check -property %s", id),
			EvidenceFile: fmt.Sprintf("/verif/evidence/%s.json", id),
			ReplayCmd:    "./bin/qvet explain {path}",
			Engine:       "qvet",
			Level: map[string]interface{}{
				"category":   "other",
				"text":       "Static analysis of /repo's current sources (type-checked syntax, CFG/SSA, call graph): " + p.Explanation + " Every instance of each rule is enumerated on every run (exhaustive over the finite syntactic family), so the clause holds for all inputs/schedules/crash points because it is a fact about all paths of the code, not about sampled executions. It is a necessary structural part of the property, not the whole behaviour.",
				"design_ref": "DESIGN.md §3 (rules " + strings.Join(rules, ", ") + "), §4 " + id,
			},
			LevelNote: "Not covered: " + p.NotCovered + " Trusted: go/types and x/tools v0.29.0; the rule tables printed in the evidence; " + strings.Join(p.Assumptions, "; ") + ".",
			Technique: "static analysis: repository-specific rules " + strings.Join(rules, ", ") + " over go/packages type-checked AST" + p.techSuffix(),
		})
	}
	var na []map[string]string
	var naIDs []string
	for id := range notApplicable {
		naIDs = append(naIDs, id)
	}
	for id := range notYetBuilt {
		if _, claimed := properties[id]; !claimed {
			naIDs = append(naIDs, id)
		}
	}
	sort.Strings(naIDs)
	for _, id := range naIDs {
		r, ok := notApplicable[id]
		if !ok {
			r = notYetBuilt[id]
		}
		na = append(na, map[string]string{"property_id": id, "reason": r})
	}
	served := ids
	m := map[string]interface{}{
		"version":   1,
		"setup_cmd": "cd qvet && GOFLAGS=-mod=mod GOPROXY=off GOWORK=off go build -o ../bin/qvet . && cd .. && ./bin/qvet list >/dev/null",
		"hooks": map[string]interface{}{
			"guard":            "verif",
			"enable":           "none needed: the checker reads source; no instrumentation exists in /repo (build tag `verif` is reserved and unused)",
			"baseline_off_cmd": "for m in $(cat /w/out/gomods.txt); do MF=$(cd /repo/$m && . /w/out/goenv.sh && gomodflag); (cd /repo/$m && go test $MF -json -vet=off -count=1 -timeout 25m ./...); done",
			"source_commits":   []string{},
			"add_only":         true,
		},
		"engines": []map[string]interface{}{{
			"name": "qvet", "path": "qvet/", "serves_properties": served,
			"kind_free_text": "repository-specific static analyser (Go, golang.org/x/tools v0.29.0: go/packages, go/ssa, go/cfg); loads and type-checks /repo's working tree on every invocation; never executes qryn code",
		}},
		"checks":         checks,
		"not_applicable": na,
		"notes":          "All checks are static (level `other`): each decides a named structural necessary condition of its property, stated in level_claimed.text, and says in level_note what it does not cover. Genuine defects found on the pinned tree were repaired by `fix:` commits in /repo or are listed in /verif/known_findings.json (status fixed entries suppress nothing). See DESIGN.md.",
	}
	b, _ := json.MarshalIndent(m, "", " ")
	fmt.Println(string(b))
	return 0
}

func (p *Property) techSuffix() string {
	if p.Technique != "" {
		return "; " + p.Technique
	}
	return ""
}

func init() {
	_ = os.Stdout
}
