package main

// D4 on SSA: limit == 0 means "no limit" wherever PlannerContext.Limit is read.

import (
	"go/token"
	"go/types"
	"strings"

	"golang.org/x/tools/go/ssa"
)

var ruleD4 = &Rule{
	ID:    "D4",
	Floor: 2, // readers of the limit; a shared applyLimit helper legitimately merges them
	Doc: "limit == 0 means `no limit` in the LogQL translators (SSA): every live function of reader/logql that reads PlannerContext.Limit has that value — followed through conversions, local cells (also captured by closures) and fields of objects it is stored into (field-based, so the test may live in a method of a helper object) — compared with the constant zero (==, !=, >, <=, <, >=) somewhere in reader/logql; " +
		"a reader that uses it unconditionally disagrees with its siblings, which treat 0 as unlimited",
	Run: func(c *Ctx) []Obl {
		var obls []Obl
		funcs := liveModuleFuncs(c, "reader/logql")
		isLimitLoad := func(v ssa.Value) bool {
			u, ok := v.(*ssa.UnOp)
			if !ok || u.Op != token.MUL {
				return false
			}
			fa, ok := u.X.(*ssa.FieldAddr)
			if !ok {
				return false
			}
			return strings.HasSuffix(fieldKey(fa.X.Type(), fa.Field), "shared.PlannerContext.Limit")
		}
		// all zero tests of the scope: values compared with the constant 0
		var tested []ssa.Value
		for _, fn := range funcs {
			for _, b := range fn.Blocks {
				for _, ins := range b.Instrs {
					bo, ok := ins.(*ssa.BinOp)
					if !ok {
						continue
					}
					switch bo.Op {
					case token.EQL, token.NEQ, token.GTR, token.LEQ, token.LSS, token.GEQ:
					default:
						continue
					}
					isZero := func(v ssa.Value) bool {
						k, ok := v.(*ssa.Const)
						return ok && k.Value != nil && k.Value.ExactString() == "0"
					}
					if isZero(bo.Y) {
						tested = append(tested, bo.X)
					}
					if isZero(bo.X) {
						tested = append(tested, bo.Y)
					}
				}
			}
		}
		for _, fn := range funcs {
			var first ssa.Value
			for _, b := range fn.Blocks {
				for _, ins := range b.Instrs {
					if v, ok := ins.(ssa.Value); ok && isLimitLoad(v) && first == nil {
						first = v
					}
				}
			}
			if first == nil {
				continue
			}
			// forward closure of the limit value
			derived := map[ssa.Value]bool{}
			fields := map[string]bool{}
			cells := map[ssa.Value]bool{}
			var add func(v ssa.Value)
			add = func(v ssa.Value) {
				if v == nil || derived[v] {
					return
				}
				derived[v] = true
				refs := v.Referrers()
				if refs == nil {
					return
				}
				for _, r := range *refs {
					switch y := r.(type) {
					case *ssa.Convert:
						add(y)
					case *ssa.ChangeType:
						add(y)
					case *ssa.Phi:
						add(y)
					case *ssa.Store:
						if y.Val != v {
							continue
						}
						switch a := y.Addr.(type) {
						case *ssa.Alloc:
							cells[a] = true
						case *ssa.FieldAddr:
							fields[fieldKey(a.X.Type(), a.Field)] = true
						}
					}
				}
			}
			for _, b := range fn.Blocks {
				for _, ins := range b.Instrs {
					if v, ok := ins.(ssa.Value); ok && isLimitLoad(v) {
						add(v)
					}
				}
			}
			isDerived := func(v ssa.Value) bool {
				for i := 0; i < 4; i++ {
					if derived[v] {
						return true
					}
					switch x := v.(type) {
					case *ssa.Convert:
						v = x.X
						continue
					case *ssa.ChangeType:
						v = x.X
						continue
					case *ssa.UnOp:
						if x.Op == token.MUL {
							if fa, ok := x.X.(*ssa.FieldAddr); ok && fields[fieldKey(fa.X.Type(), fa.Field)] {
								return true
							}
							if cells[rootCell(x.X)] {
								return true
							}
						}
					}
					break
				}
				return false
			}
			zeroTest := false
			for _, t := range tested {
				if isDerived(t) {
					zeroTest = true
				}
			}
			name := ssaName(fn)
			if fi := c.funcInfoOf(fn); fi != nil && fn.Parent() == nil {
				name = fi.Name()
			}
			key := name + " reads PlannerContext.Limit"
			if zeroTest {
				obls = append(obls, Obl{Key: key, Pos: c.pos(first.Pos()), Status: OK, Msg: "zero-tested"})
			} else {
				obls = append(obls, Obl{Key: key, Pos: c.pos(first.Pos()), Status: Violation,
					Msg: "the limit is used without a zero test; the sibling planners treat 0 as `unlimited`, so a request without a limit gets a different answer on this path"})
			}
		}
		_ = types.Typ
		return obls
	},
}
