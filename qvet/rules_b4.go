package main

// B4: a request processor gives the shared column list back (C05 / C02).

import (
	"go/token"
	"go/types"

	"golang.org/x/tools/go/ssa"
)

func isProcessorSig(sig *types.Signature) bool {
	return sig.Params().Len() == 2 && sig.Results().Len() == 3 && isColPoolResSlice(sig.Params().At(1).Type()) &&
		isColPoolResSlice(sig.Results().At(1).Type()) && types.Identical(sig.Results().At(2).Type(), types.Universe.Lookup("error").Type())
}

var ruleB4 = &Rule{
	ID:    "B4",
	Floor: 6,
	Doc: "a request processor gives the shared column list back: the insert service stores the column list its processor returns into the batch shared by all requests (under the lock, in the instruction that also receives the error — before the error is looked at). " +
		"Every return of a processor `func(req any, cols []IColPoolRes) (int, []IColPoolRes, error)` of writer/service that does not hand back a list derived from its `cols` parameter must therefore be unreachable for requests of the right type: it has to be dominated by the failure edge of the type assertion of the request parameter (the handlers only submit the type the service was built for). " +
		"A data-dependent rejection that returns nil columns replaces the shared batch by nil: the rows other clients have waiting are dropped and the next append or flush indexes an empty list (panic in the flush goroutine). Armed only while the store into the shared field is not dominated by the nil-error edge",
	Run: func(c *Ctx) []Obl {
		var obls []Obl
		var kk keyer
		// is the processor's column result stored before the error is tested?
		armed := false
		for _, fn := range liveModuleFuncs(c, "writer/service") {
			for _, b := range fn.Blocks {
				for _, ins := range b.Instrs {
					st, ok := ins.(*ssa.Store)
					if !ok || !isColPoolResSlice(st.Val.Type()) {
						continue
					}
					ex, ok := st.Val.(*ssa.Extract)
					if !ok || ex.Index != 1 {
						continue
					}
					call, ok := ex.Tuple.(*ssa.Call)
					if !ok {
						continue
					}
					sig := call.Common().Signature()
					if sig == nil || !isProcessorSig(sig) {
						continue
					}
					if _, isField := st.Addr.(*ssa.FieldAddr); isField && st.Block() == call.Block() {
						armed = true
					}
				}
			}
		}
		for _, fn := range liveModuleFuncs(c, "writer/service") {
			if !isProcessorSig(fn.Signature) || len(fn.Params) < 2 || len(fn.Blocks) == 0 {
				continue
			}
			req, cols := fn.Params[len(fn.Params)-2], fn.Params[len(fn.Params)-1]
			// failure successors of `_, ok := req.(T)`
			var failBlocks []*ssa.BasicBlock
			for _, b := range fn.Blocks {
				if len(b.Instrs) == 0 {
					continue
				}
				iff, ok := b.Instrs[len(b.Instrs)-1].(*ssa.If)
				if !ok {
					continue
				}
				cond, neg := iff.Cond, false
				if u, ok := cond.(*ssa.UnOp); ok && u.Op == token.NOT {
					cond, neg = u.X, true
				}
				ex, ok := cond.(*ssa.Extract)
				if !ok || ex.Index != 1 {
					continue
				}
				ta, ok := ex.Tuple.(*ssa.TypeAssert)
				if !ok || !ta.CommaOk || canon(ta.X) != canon(req) {
					continue
				}
				fail := b.Succs[1]
				if neg {
					fail = b.Succs[0]
				}
				if len(fail.Preds) == 1 {
					failBlocks = append(failBlocks, fail)
				}
			}
			for _, r := range returnsOf(fn) {
				if len(r.Results) != 3 {
					continue
				}
				gives := dependsOnValue(r.Results[1], func(x ssa.Value) bool { return canon(x) == canon(cols) }, map[ssa.Value]bool{}, 0)
				key := kk.key(ssaName(fn) + " return hands the column list back")
				if gives {
					obls = append(obls, Obl{Key: key, Pos: c.pos(r.Pos()), Status: OK})
					continue
				}
				onTypeFailure := false
				for _, fb := range failBlocks {
					if fb == r.Block() || fb.Dominates(r.Block()) {
						onTypeFailure = true
					}
				}
				switch {
				case onTypeFailure:
					obls = append(obls, Obl{Key: key, Pos: c.pos(r.Pos()), Status: OK, Msg: "returns no columns only when the request is not of the service's type (not submitted by any handler)"})
				case !armed:
					obls = append(obls, Obl{Key: key, Pos: c.pos(r.Pos()), Status: OK, Msg: "the service looks at the error before it stores the returned list"})
				default:
					obls = append(obls, Obl{Key: key, Pos: c.pos(r.Pos()), Status: Violation,
						Msg: "this return does not hand back the column list it was given and is reachable for a request of the right type: the insert service stores the returned (nil) list into the batch shared with other clients before it looks at the error — their waiting rows are dropped and the next append / flush indexes an empty column list"})
				}
			}
		}
		return obls
	},
}

func init() { register(ruleB4) }
